"""EXPRESS front-end diagnostics -> Generated/LibErrors.lean          (used by C20 and C04)

Re-derived from the working tree on every run:
  include/express/error.h   enum ErrorCode (numbering), enum Severity
  src/express/error.c       LibErrors[] (severity, printf format, warning-class name), ERROR_MAX_*, the message
                            prefixes and severity thresholds of ERRORreport_with_symbol, how ERRORreport_with_line
                            forwards its arguments, whether ERRORset_warning guards NULL class names, which entries
                            ERRORset_warning/ERRORset_all_warnings may touch, the sense of ERRORis_enabled
  src/express/fedex.c       -w/-i handling (no_warnings default), the ERRORoccurred gates of main
  src/express/express.c     return values of EXPRESS_fail / EXPRESS_succeed
  src/exp2cxx/fedex_main.c, src/exp2python/src/fedex_main_python.c   return value of the `success` hook
Every pattern that no longer matches raises (= broken tie).
"""
import os, re


def _strip_comments(s):
    s = re.sub(r"/\*.*?\*/", lambda m: re.sub(r"[^\n]", " ", m.group(0)), s, flags=re.S)
    return re.sub(r"//[^\n]*", "", s)


def _enum(text, name):
    m = re.search(r"enum\s+" + name + r"\s*\{(.*?)\}", text, re.S)
    if not m:
        raise ValueError(f"enum {name} not found")
    items, nxt = [], 0
    for part in _strip_comments(m.group(1)).split(","):
        part = part.strip()
        if not part:
            continue
        if "=" in part:
            k, v = [x.strip() for x in part.split("=")]
            nxt = int(v, 0)
        else:
            k = part
        items.append((k, nxt))
        nxt += 1
    return items


def _body(text, sig_re):
    m = re.search(sig_re, text)
    if not m:
        raise ValueError(f"function {sig_re} not found")
    j = text.index("{", m.end() - 1)
    depth, k = 0, j
    while True:
        c = text[k]
        if c == '"':                       # skip string literals
            k += 1
            while text[k] != '"':
                k += 2 if text[k] == "\\" else 1
        elif c == "{":
            depth += 1
        elif c == "}":
            depth -= 1
            if depth == 0:
                break
        k += 1
    return text[j + 1:k]


def _c_unescape(s):
    out, i = [], 0
    while i < len(s):
        if s[i] == "\\":
            n = s[i + 1]
            out.append({"n": "\n", "t": "\t", "\\": "\\", '"': '"', "'": "'", "0": "\0"}.get(n, None) or _bad(n))
            i += 2
        else:
            out.append(s[i]); i += 1
    return "".join(out)


def _bad(n):
    raise ValueError(f"unsupported escape \\{n} in a C string")


def _lean_str(s):
    out = []
    for ch in s:
        if ch == "\\":
            out.append("\\\\")
        elif ch == '"':
            out.append('\\"')
        elif ch == "\n":
            out.append("\\n")
        elif ch == "\t":
            out.append("\\t")
        elif 32 <= ord(ch) < 127:
            out.append(ch)
        else:
            raise ValueError(f"non-printable byte in format string: {ch!r}")
    return '"' + "".join(out) + '"'


STR = r'"((?:[^"\\]|\\.)*)"'


def _table(err_c, codes):
    m = re.search(r"static\s+struct\s+Error_\s+LibErrors\s*\[\s*\]\s*=\s*\{(.*?)\n\};", err_c, re.S)
    if not m:
        raise ValueError("LibErrors[] initialiser not found")
    body = _strip_comments(m.group(1))
    ent_re = re.compile(r"\[\s*(\w+)\s*\]\s*=\s*\{\s*(\w+)\s*,\s*((?:" + STR + r"\s*)+),\s*(NULL|" + STR + r")\s*,\s*(false|true|0|1)\s*\}\s*,?", re.S)
    entries, pos = {}, 0
    for mm in ent_re.finditer(body):
        if body[pos:mm.start()].strip():
            raise ValueError(f"LibErrors[]: unparsed text {body[pos:mm.start()].strip()[:60]!r}")
        pos = mm.end()
        code, sev, fmts, cls, ovr = mm.group(1), mm.group(2), mm.group(3), mm.group(5), mm.group(7)
        fmt = "".join(_c_unescape(x) for x in re.findall(STR, fmts))
        clsname = None if cls == "NULL" else _c_unescape(re.match(STR, cls).group(1))
        if code not in codes:
            raise ValueError(f"LibErrors[{code}]: not in enum ErrorCode")
        if code in entries:
            raise ValueError(f"LibErrors[{code}] initialised twice")
        entries[code] = (sev, fmt, clsname, ovr in ("true", "1"))
    if body[pos:].strip():
        raise ValueError(f"LibErrors[]: unparsed tail {body[pos:].strip()[:60]!r}")
    return entries


def extract(repo):
    rd = lambda p: open(os.path.join(repo, p)).read()
    err_h, err_c = rd("include/express/error.h"), rd("src/express/error.c")
    fedex, express_c = rd("src/express/fedex.c"), rd("src/express/express.c")
    codes_l = _enum(err_h, "ErrorCode")
    codes = dict(codes_l)
    sev_l = _enum(err_h, "Severity")
    sev = dict(sev_l)
    for k in ("SEVERITY_WARNING", "SEVERITY_ERROR", "SEVERITY_EXIT", "SEVERITY_DUMP"):
        if k not in sev:
            raise ValueError(f"{k} missing from enum Severity")
    entries = _table(err_c, codes)
    size = max(codes[c] for c in entries) + 1          # sizeof LibErrors / sizeof LibErrors[0]
    consts = {}
    for nm in ("ERROR_MAX_ERRORS", "ERROR_MAX_SPACE", "ERROR_MAX_STRLEN"):
        m = re.search(r"#define\s+" + nm + r"\s+(\d+)", err_c)
        if not m:
            raise ValueError(f"{nm} not found")
        consts[nm] = int(m.group(1))
    code_c = _strip_comments(err_c)

    # ---- how ERRORreport_with_line hands its arguments on ------------------------------------------------------
    wl = _body(code_c, r"\bERRORreport_with_line\s*\(\s*enum\s+ErrorCode\s+errnum\s*,\s*int\s+line\s*,\s*\.\.\.\s*\)\s*\{")
    if not re.search(r"va_start\s*\(\s*args\s*,\s*line\s*\)", wl):
        raise ValueError("ERRORreport_with_line: va_start( args, line ) not found")
    m = re.search(r"\b(\w+)\s*\(\s*errnum\s*,\s*&\s*sym\s*,\s*args\s*\)\s*;", wl)
    if not m:
        raise ValueError("ERRORreport_with_line: forwarding call `f( errnum, &sym, args )` not found")
    callee = m.group(1)
    sig = re.search(r"\b" + callee + r"\s*\(\s*enum\s+ErrorCode\s+\w+\s*,\s*Symbol\s*\*\s*\w+\s*,\s*([^)]*)\)\s*\{", code_c)
    if not sig:
        raise ValueError(f"definition of {callee} not found")
    third = sig.group(1).strip()
    if third == "...":
        forwards_va_list = False       # the va_list object becomes the single variadic argument
    elif re.match(r"va_list\s+\w+$", third):
        forwards_va_list = True
    else:
        raise ValueError(f"{callee}: unexpected third parameter {third!r}")
    # the formatting routine: the function that contains the buffering heap code
    fmt_fn = callee if forwards_va_list else "ERRORreport_with_symbol"
    ws = _body(code_c, r"\b" + fmt_fn + r"\s*\(\s*enum\s+ErrorCode\s+errnum\s*,\s*Symbol\s*\*\s*sym\s*,[^)]*\)\s*\{")
    if forwards_va_list:
        # ERRORreport_with_symbol must forward to the same routine with its own va_list
        wsb = _body(code_c, r"\bERRORreport_with_symbol\s*\(\s*enum\s+ErrorCode\s+errnum\s*,\s*Symbol\s*\*\s*sym\s*,\s*\.\.\.\s*\)\s*\{")
        if not (re.search(r"va_start\s*\(\s*args\s*,\s*sym\s*\)", wsb) and
                re.search(r"\b" + callee + r"\s*\(\s*errnum\s*,\s*sym\s*,\s*args\s*\)", wsb)):
            raise ValueError("ERRORreport_with_symbol does not forward ( errnum, sym, args ) to " + callee)
    elif not re.search(r"va_start\s*\(\s*args\s*,\s*sym\s*\)", ws):
        raise ValueError("ERRORreport_with_symbol: va_start( args, sym ) not found")

    # ---- prefixes / thresholds in the formatting routine ------------------------------------------------------
    if not re.search(r"errnum\s*!=\s*SUBORDINATE_FAILED\s*&&\s*ERRORis_enabled\s*\(\s*errnum\s*\)", ws):
        raise ValueError("report_with_symbol: guard `errnum != SUBORDINATE_FAILED && ERRORis_enabled(errnum)` not found")
    pe = set(re.findall(r'\(\s*(?:error_file\s*,\s*)?"(%s:%d: --ERROR PE%03d: )"\s*,\s*sym->filename\s*,\s*sym->line\s*,\s*errnum\s*\)', ws))
    pw = set(re.findall(r'\(\s*(?:error_file\s*,\s*)?"(%s:%d: WARNING PW%03d: )"\s*,\s*sym->filename\s*,\s*sym->line\s*,\s*errnum\s*\)', ws))
    if len(re.findall(r"--ERROR PE", ws)) != 2 or len(re.findall(r"WARNING PW", ws)) != 2 or len(pe) != 1 or len(pw) != 1:
        raise ValueError("report_with_symbol: the two ERROR / two WARNING prefixes are not in the expected form")
    n_err_branch = len(re.findall(r"if\s*\(\s*what->severity\s*>=\s*SEVERITY_ERROR\s*\)", ws))
    occ = [m.start() for m in re.finditer(r"ERRORoccurred\s*=\s*true", ws)]
    if n_err_branch != 2 or len(occ) != 2:
        raise ValueError("report_with_symbol: `if( what->severity >= SEVERITY_ERROR )` x2 with ERRORoccurred = true x2 expected")
    for o in occ:   # each assignment sits in the ERROR branch: between a PE prefix and the following `else`
        before = ws[:o]
        if before.rfind("--ERROR PE") < before.rfind("WARNING PW"):
            raise ValueError("report_with_symbol: ERRORoccurred is set outside the ERROR branch")
    if len(re.findall(r"what->severity\s*>=\s*SEVERITY_EXIT", ws)) != 2 or \
       len(re.findall(r"if\s*\(\s*what->severity\s*>=\s*SEVERITY_DUMP\s*\)\s*\{\s*abort\s*\(\s*\)\s*;\s*\}\s*else\s*\{\s*exit\s*\(\s*EXPRESS_fail\s*\(", ws)) != 2:
        raise ValueError("report_with_symbol: EXIT/DUMP handling not in the expected form")
    # the buffered branch when the message area / the heap is full: either the condition is or-ed to the EXIT test (the run ends
    # with the failure status whatever was reported) or it stands on its own and only flushes and restarts the buffer
    wsn = re.sub(r"\s+", "", re.sub(r"/\*.*?\*/", "", ws, flags=re.S))
    full = r"ERROR_string\+ERROR_MAX_STRLEN>ERROR_string_base\+ERROR_MAX_SPACE\|\|ERROR_with_lines==ERROR_MAX_ERRORS"
    tail = r"ERROR_flush_message_buffer\(\);if\(what->severity>=SEVERITY_DUMP\)\{abort\(\);\}else\{exit\(EXPRESS_fail\(\(Express\)0\)\);\}\}"
    if re.search(r"if\(what->severity>=SEVERITY_EXIT\|\|" + full + r"\)\{" + tail, wsn):
        buffer_full_ends_run = True
    elif re.search(r"if\(what->severity>=SEVERITY_EXIT\)\{" + tail + r"if\(" + full + r"\)\{ERROR_flush_message_buffer\(\);ERROR_start_message_buffer\(\);\}", wsn):
        buffer_full_ends_run = False
    else:
        raise ValueError("report_with_symbol: the buffered branch's EXIT / buffer-full handling is not in a modelled form")
    # the unbuffered branch terminates each message with a newline, the buffered one with ERROR_nexterror()
    unbuf_nl = len(re.findall(r'fprintf\s*\(\s*error_file\s*,\s*"\\n"\s*\)', ws))
    buf_next = len(re.findall(r"ERROR_nexterror\s*\(\s*\)", ws))
    if unbuf_nl != 2 or buf_next != 2:
        raise ValueError("report_with_symbol: message terminators not in the expected form")
    nexterr = _body(code_c, r"static\s+void\s+ERROR_nexterror\s*\(\s*\)\s*\{")
    flush = _body(code_c, r"\bvoid\s+ERROR_flush_message_buffer\s*\(\s*void\s*\)\s*\{")
    mfl = re.search(r'fprintf\s*\(\s*stderr\s*,\s*"%s(\\n)?"\s*,\s*heap\s*\[\s*1\s*\]\s*\.msg\s*\)', flush)
    if not mfl:
        raise ValueError("ERROR_flush_message_buffer: `fprintf( stderr, \"%s\" | \"%s\\n\", heap[1].msg )` not found")
    buffered_newline = bool(re.search(r"\\n", nexterr)) or mfl.group(1) is not None
    # EXPRESS_succeed: are the buffered warnings of a run without errors printed (flush before the hook / the banner)
    exp_c = open(os.path.join(repo, "src/express/express.c")).read()
    succ = _body(exp_c, r"\bint\s+EXPRESS_succeed\s*\(\s*Express\s+model\s*\)\s*\{")
    succeed_flushes = bool(re.match(r"\s*(?:/\*.*?\*/\s*)*ERRORflush_messages\s*\(\s*\)\s*;", succ, flags=re.S))

    # ---- ERRORreport (no position) ------------------------------------------------------------------------------
    rp = _body(code_c, r"\bERRORreport\s*\(\s*enum\s+ErrorCode\s+errnum\s*,\s*\.\.\.\s*\)\s*\{")
    m1 = re.search(r'fprintf\s*\(\s*error_file\s*,\s*"(ERROR PE%03d: )"\s*,\s*errnum\s*\)', rp)
    m2 = re.search(r'fprintf\s*\(\s*error_file\s*,\s*"(WARNING PW%03d: )(%d)?"\s*,\s*errnum\s*(,\s*what->severity\s*)?\)', rp)
    if not (m1 and m2):
        raise ValueError("ERRORreport: prefixes not in the expected form")
    report_warn_prints_severity = m2.group(2) is not None

    # ---- switches -------------------------------------------------------------------------------------------------
    sw = _body(code_c, r"\bvoid\s+ERRORset_warning\s*\(\s*char\s*\*\s*name\s*,\s*bool\s+warn_only\s*\)\s*\{")
    m = re.search(r"if\s*\(\s*(err->severity\s*<=\s*SEVERITY_WARNING\s*&&\s*)?(err->name\s*(?:!=\s*NULL\s*)?&&\s*)?!\s*strcmp\s*\(\s*err->name\s*,\s*name\s*\)\s*\)\s*\{\s*found\s*=\s*true\s*;\s*err->override\s*=\s*warn_only\s*;", sw)
    if not m:
        raise ValueError("ERRORset_warning: class test not in the expected form")
    severity_guard = m.group(1) is not None
    null_guard = m.group(2) is not None
    if not re.search(r"for\s*\(\s*unsigned\s+int\s+errnum\s*=\s*0\s*;\s*errnum\s*<\s*\(\s*sizeof\s+LibErrors\s*/\s*sizeof\s+LibErrors\s*\[\s*0\s*\]\s*\)", sw):
        raise ValueError("ERRORset_warning: loop over the whole table (from index 0) not found")
    if not re.search(r"if\s*\(\s*!\s*found\s*\)\s*\{\s*fprintf\s*\(\s*stderr\s*,\s*\"unknown warning: %s\\n\"", sw):
        raise ValueError("ERRORset_warning: unknown-warning branch not found")
    sa = _body(code_c, r"\bvoid\s+ERRORset_all_warnings\s*\(\s*bool\s+warn_only\s*\)\s*\{")
    if not re.search(r"if\s*\(\s*err->severity\s*<=\s*SEVERITY_WARNING\s*\)\s*\{\s*err->override\s*=\s*warn_only\s*;", sa):
        raise ValueError("ERRORset_all_warnings: not in the expected form")
    ie = _body(code_c, r"\bERRORis_enabled\s*\(\s*enum\s+ErrorCode\s+errnum\s*\)\s*\{")
    if not re.search(r"return\s*!\s*err->override\s*;", ie):
        raise ValueError("ERRORis_enabled: `return !err->override` not found")
    # usage exits with status 2
    info = _strip_comments(rd("src/express/info.c"))
    if not re.search(r"if\s*\(\s*_exit\s*\)\s*\{\s*exit\s*\(\s*2\s*\)\s*;", info):
        raise ValueError("EXPRESSusage: exit( 2 ) not found")

    # ---- fedex.c main ---------------------------------------------------------------------------------------------
    fx = _strip_comments(fedex)
    mainb = _body(fx, r"\bint\s+main\s*\(\s*int\s+argc\s*,\s*char\s*\*\*\s*argv\s*\)\s*\{")
    # the option loop and the warning switches.  Two forms:
    #  (a) int no_warnings = 1; ... case 'i': case 'w': no_warnings = 0; ERRORset_warning( sc_optarg, c == 'X' ); ...
    #      after the loop: if( no_warnings ) ERRORset_all_warnings( D );            -> a switch changes its own class only
    #  (b) ERRORset_all_warnings( D ); before the loop and every -i/-w does ERRORset_all_warnings( R ); ERRORset_warning( ... )
    #      -> every switch first resets ALL warning classes (undoing the earlier switches)
    ma = re.search(r"case\s+'i'\s*:\s*case\s+'w'\s*:\s*no_warnings\s*=\s*0\s*;\s*ERRORset_warning\s*\(\s*sc_optarg\s*,\s*c\s*==\s*'(\w)'\s*\)\s*;", mainb)
    mb = re.search(r"case\s+'i'\s*:\s*case\s+'w'\s*:\s*ERRORset_all_warnings\s*\(\s*(\d+|true|false)\s*\)\s*;\s*ERRORset_warning\s*\(\s*sc_optarg\s*,\s*c\s*==\s*'(\w)'\s*\)\s*;", mainb)
    if ma and not mb:
        if not re.search(r"int\s+no_warnings\s*=\s*1\s*;", mainb):
            raise ValueError("fedex main: `int no_warnings = 1` not found")
        override_letter = ma.group(1)
        m = re.search(r"if\s*\(\s*no_warnings\s*\)\s*\{\s*ERRORset_all_warnings\s*\(\s*(\d+|true|false)\s*\)\s*;", mainb)
        if not m:
            raise ValueError("fedex main: `if( no_warnings ) ERRORset_all_warnings( . )` not found")
        default_override = m.group(1) in ("1", "true")
        switch_resets_all = False
    elif mb and not ma:
        override_letter = mb.group(2)
        pre = mainb[:mainb.find("sc_getopt(")]
        m = re.search(r"ERRORset_all_warnings\s*\(\s*(\d+|true|false)\s*\)\s*;", pre)
        if not m or "no_warnings" in mainb or mb.group(1) in ("1", "true"):
            raise ValueError("fedex main: the reset-per-switch form of the option loop is not the modelled one")
        default_override = m.group(1) in ("1", "true")
        switch_resets_all = True
    else:
        raise ValueError("fedex main: -i/-w case not in a modelled form")
    # gates: where main() looks at ERRORoccurred between its three phases.  Two forms are recognised:
    #  (a) after a phase:  if( ERRORoccurred ) { result = EXPRESS_fail( model ); ... return result; }
    #  (b) one flag:       failed = ERRORoccurred;  after a phase, the next phases guarded by `!failed &&`, and
    #                      result = failed ? EXPRESS_fail( model ) : EXPRESS_succeed( model );  at the end
    # a gate is "after phase P" when main() reads ERRORoccurred after P and before the next phase / the final verdict
    p_parse = mainb.find("EXPRESSparse(")
    p_res = mainb.find("EXPRESSresolve(")
    m = re.search(r"if\s*\(\s*(?:!\s*failed\s*&&\s*)?EXPRESSbackend\s*\)\s*\{\s*\(\s*\*\s*EXPRESSbackend\s*\)\s*\(\s*model\s*\)\s*;", mainb)
    p_back = m.start() if m else -1
    p_succ = mainb.find("EXPRESS_succeed(")
    if min(p_parse, p_res, p_back, p_succ) < 0 or not (p_parse < p_res < p_back < p_succ):
        raise ValueError("fedex main: parse/resolve/backend/succeed calls not found in this order")
    gate_re = re.compile(r"if\s*\(\s*ERRORoccurred\s*\)\s*\{\s*result\s*=\s*EXPRESS_fail\s*\(\s*model\s*\)\s*;[^}]*?return\s+result\s*;\s*\}")
    gates = [g.start() for g in gate_re.finditer(mainb)]
    flag = [g.start() for g in re.finditer(r"\bfailed\s*=\s*ERRORoccurred\s*;", mainb)]
    if flag:
        if gates:
            raise ValueError("fedex main: both forms of the ERRORoccurred gates at once")
        if not re.search(r"result\s*=\s*failed\s*\?\s*EXPRESS_fail\s*\(\s*model\s*\)\s*:\s*EXPRESS_succeed\s*\(\s*model\s*\)\s*;", mainb) or \
           not re.search(r"if\s*\(\s*!\s*failed\s*&&\s*resolve\s*\)", mainb) or not re.search(r"if\s*\(\s*!\s*failed\s*&&\s*EXPRESSbackend\s*\)", mainb):
            raise ValueError("fedex main: the `failed` flag form is not the modelled one")
        gates = flag
    elif not re.search(r"if\s*\(\s*resolve\s*\)\s*\{", mainb):
        raise ValueError("fedex main: `if( resolve )` not found")
    gate_after_parse = any(p_parse < g < p_res for g in gates)
    gate_after_resolve = any(p_res < g < p_back for g in gates)
    gate_after_backend = any(p_back < g < p_succ for g in gates)
    if len(gates) != int(gate_after_parse) + int(gate_after_resolve) + int(gate_after_backend):
        raise ValueError("fedex main: an ERRORoccurred gate in an unexpected place")
    ex = _strip_comments(express_c)
    fb = _body(ex, r"\bint\s+EXPRESS_fail\s*\(\s*Express\s+model\s*\)\s*\{")
    sb = _body(ex, r"\bint\s+EXPRESS_succeed\s*\(\s*Express\s+model\s*\)\s*\{")
    mf = re.search(r'fprintf\s*\(\s*stderr\s*,\s*"(Errors in input)\\n"\s*\)\s*;\s*return\s+(-?\d+)\s*;', fb)
    ms = re.search(r'fprintf\s*\(\s*stderr\s*,\s*"(No errors in input)\\n"\s*\)\s*;\s*return\s+(-?\d+)\s*;', sb)
    if not (mf and ms):
        raise ValueError("EXPRESS_fail / EXPRESS_succeed: not in the expected form")
    fail_rc, succ_rc = int(mf.group(2)), int(ms.group(2))
    hooks = {}
    for tool, path in (("exp2cxx", "src/exp2cxx/fedex_main.c"), ("exp2python", "src/exp2python/src/fedex_main_python.c")):
        t = _strip_comments(rd(path))
        if not re.search(r"EXPRESSsucceed\s*=\s*success\s*;", t):
            raise ValueError(f"{tool}: EXPRESSsucceed = success not found")
        if re.search(r"EXPRESSfail\s*=", t):
            raise ValueError(f"{tool}: installs an EXPRESSfail hook (not modelled)")
        b = _body(t, r"\bint\s+success\s*\(\s*Express\s+model\s*\)\s*\{")
        m = re.search(r"return\s*\(?\s*(-?\d+)\s*\)?\s*;", b)
        if not m:
            raise ValueError(f"{tool}: success() return value not found")
        hooks[tool] = int(m.group(1))
    xp = _strip_comments(rd("src/exppp/exppp-main.c"))
    if re.search(r"EXPRESS(fail|succeed)\s*=", xp):
        raise ValueError("exppp installs EXPRESSfail/EXPRESSsucceed hooks (not modelled)")

    # ---- emit -----------------------------------------------------------------------------------------------------
    L = ["-- GENERATED by tools/extract.d/liberrors.py from include/express/error.h, src/express/error.c, src/express/fedex.c,",
         "-- src/express/express.c, src/express/info.c and the generators' fedex mains.  Do not edit.",
         "namespace StepModel.Generated.LibErrors", ""]
    for k, v in sev_l:
        if k != "SEVERITY_MAX":
            L.append(f"def {k} : Nat := {v}")
    L += ["", "/-- one initialised element of `LibErrors[]` -/",
          "structure Entry where", "  code : Nat", "  ident : String", "  severity : Nat", "  format : String",
          "  cls : Option String", "  override : Bool", "  deriving Repr, DecidableEq", "",
          "/-- `sizeof LibErrors / sizeof LibErrors[0]` (designated initialisers: highest index + 1) -/",
          f"def tableSize : Nat := {size}", "",
          "/-- the designated initialisers, in enum order; every other index below `tableSize` is zero-filled",
          "    (severity 0, format NULL, class NULL, override false) -/",
          "def entries : List Entry := ["]
    rows = []
    for code, num in codes_l:
        if code in entries:
            s, fmt, cls, ovr = entries[code]
            c = "none" if cls is None else f"some {_lean_str(cls)}"
            rows.append(f"  ⟨{num}, {_lean_str(code)}, {s}, {_lean_str(fmt)}, {c}, {'true' if ovr else 'false'}⟩")
    L.append(",\n".join(rows) + "]")
    L += ["", "/-- `enum ErrorCode` -/", "def codeEnum : List (String × Nat) := [" + ", ".join(f'({_lean_str(k)}, {v})' for k, v in codes_l) + "]", ""]
    for code, num in codes_l:
        L.append(f"def {code} : Nat := {num}")
    L += ["",
          f"def ERROR_MAX_ERRORS : Nat := {consts['ERROR_MAX_ERRORS']}",
          f"def ERROR_MAX_SPACE : Nat := {consts['ERROR_MAX_SPACE']}",
          f"def ERROR_MAX_STRLEN : Nat := {consts['ERROR_MAX_STRLEN']}", "",
          "/-- `ERRORreport_with_line` hands its `va_list` to a `va_list`-taking routine (true) or passes the",
          "    `va_list` object as the single variadic argument of `ERRORreport_with_symbol` (false) -/",
          f"def withLineForwardsVaList : Bool := {'true' if forwards_va_list else 'false'}",
          "/-- `ERRORset_warning` tests `err->name` for NULL before `strcmp` -/",
          f"def setWarningNullGuard : Bool := {'true' if null_guard else 'false'}",
          "/-- `ERRORset_warning` only touches entries of severity <= SEVERITY_WARNING -/",
          f"def setWarningSeverityGuard : Bool := {'true' if severity_guard else 'false'}",
          "/-- prefix of a positioned ERROR / WARNING message (printf format: file, line, code) -/",
          f"def prefixError : String := {_lean_str(pe.pop())}",
          f"def prefixWarning : String := {_lean_str(pw.pop())}",
          "/-- prefixes used by `ERRORreport` (no position) -/",
          f"def plainPrefixError : String := {_lean_str(m1.group(1))}",
          f"def plainPrefixWarning : String := {_lean_str(m2.group(1))}",
          "/-- `ERRORreport` prints the numeric severity right after the WARNING prefix -/",
          f"def plainWarningPrintsSeverity : Bool := {'true' if report_warn_prints_severity else 'false'}",
          "/-- every `-w` or `-i` switch first switches ALL warning classes on again (undoing what earlier switches set) before it sets its own class -/",
          f"def switchResetsAll : Bool := {'true' if switch_resets_all else 'false'}",
          "/-- buffered (`-B`) messages are terminated by a newline when flushed -/",
          f"def bufferedNewline : Bool := {'true' if buffered_newline else 'false'}",
          "/-- with `-B`, a full message area / heap ends the run with the failure status (else: flush, restart the buffer, go on) -/",
          f"def bufferFullEndsRun : Bool := {'true' if buffer_full_ends_run else 'false'}",
          "/-- `EXPRESS_succeed` flushes the buffered (`-B`) warnings of a run without errors before the banner -/",
          f"def succeedFlushes : Bool := {'true' if succeed_flushes else 'false'}",
          "/-- the option letter for which `ERRORset_warning` is called with `warn_only = true` -/",
          f"def overrideLetter : Char := '{override_letter}'",
          "/-- argument of `ERRORset_all_warnings` when neither -w nor -i was given -/",
          f"def defaultOverride : Bool := {'true' if default_override else 'false'}",
          "/-- `fedex.c main`: is there an `if( ERRORoccurred ) return EXPRESS_fail` gate after parse / resolve / backend -/",
          f"def gateAfterParse : Bool := {'true' if gate_after_parse else 'false'}",
          f"def gateAfterResolve : Bool := {'true' if gate_after_resolve else 'false'}",
          f"def gateAfterBackend : Bool := {'true' if gate_after_backend else 'false'}",
          f"def failStatus : Int := {fail_rc}",
          f"def succeedStatus : Int := {succ_rc}",
          f"def failBanner : String := {_lean_str(mf.group(1))}",
          f"def succeedBanner : String := {_lean_str(ms.group(1))}",
          f"def usageStatus : Int := 2",
          "/-- return value of the `EXPRESSsucceed` hook per tool (check-express and exppp use `EXPRESS_succeed`'s own) -/",
          f"def succeedStatusExp2cxx : Int := {hooks['exp2cxx']}",
          f"def succeedStatusExp2python : Int := {hooks['exp2python']}",
          "", "end StepModel.Generated.LibErrors", ""]
    return {"LibErrors.lean": "\n".join(L)}

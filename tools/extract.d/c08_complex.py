"""Constants of the run-time complex-entity matcher -> Generated/ComplexGen.lean

* `LISTEND`, the enumerator order of MarkType / MatchType / JoinType (the matcher compares them with `<`, `>=`),
  the values an `OrList` starts with (`choice`, `choice1`, `choiceCount`)  — include/clstepcore/complexSupport.h
* whether `MultList::tryNext` can reach `firstCandidate()` with a null pointer (src/clstepcore/trynext.cc):
  the loop steps backwards with `firstCandidate( child->prev )`, and `firstCandidate` starts with
  `child->lastNot( SIMPLE )`; `tryNextNullSafe` is true when either place tests the pointer first.
A shape this extractor does not recognise raises (= broken tie).
"""
import os, re


def _strip(text):
    text = re.sub(r"/\*.*?\*/", "", text, flags=re.S)
    return re.sub(r"//[^\n]*", "", text)


def _enum(h, name):
    m = re.search(r"enum\s+" + name + r"\s*\{([^}]*)\}", h)
    if not m:
        raise ValueError(f"enum {name} not found")
    items = [x.strip() for x in m.group(1).split(",") if x.strip()]
    if any("=" in x for x in items):
        raise ValueError(f"enum {name} has explicit values: {items}")
    return items


def _func_body(text, header_re):
    m = re.search(header_re, text)
    if not m:
        raise ValueError(f"{header_re} not found")
    j = text.index("{", m.end() - 1)
    depth, k = 0, j
    while True:
        if text[k] == "{":
            depth += 1
        elif text[k] == "}":
            depth -= 1
            if depth == 0:
                break
        k += 1
    return text[j + 1:k]


NULLTEST = r"(?:!\s*{v}\b|{v}\s*==\s*(?:NULL|0|nullptr)|{v}\s*!=\s*(?:NULL|0|nullptr)|\(\s*{v}\s*\)\s*\?|\b{v}\s*\?|{v}\s*&&)"


def extract(repo):
    h = _strip(open(os.path.join(repo, "include/clstepcore/complexSupport.h")).read())
    tn = _strip(open(os.path.join(repo, "src/clstepcore/trynext.cc")).read())
    m = re.search(r"#define\s+LISTEND\s+(\d+|INT_MAX)\b", h)
    if not m:
        raise ValueError("LISTEND not found (expected a number or INT_MAX)")
    listend = 2147483647 if m.group(1) == "INT_MAX" else int(m.group(1))
    marks, matches, joins = _enum(h, "MarkType"), _enum(h, "MatchType"), _enum(h, "JoinType")
    m = re.search(r"OrList\s*\(\s*\)\s*:\s*MultList\s*\(\s*OR\s*\)\s*,\s*choice\s*\(\s*(-?\d+)\s*\)\s*,\s*choice1\s*\(\s*(-?\d+)\s*\)\s*,\s*choiceCount\s*\(\s*(\d+)\s*\)", h)
    if not m:
        raise ValueError("OrList constructor initialisers not found")
    c0, c10, cc0 = int(m.group(1)), int(m.group(2)), int(m.group(3))
    mr = re.search(r"choice\s*=\s*(-?\d+)\s*;\s*choice1\s*=\s*(-?\d+)\s*;\s*choiceCount\s*=\s*(\d+)\s*;", _func_body(h, r"void\s+reset\s*\(\s*\)\s*(?=\{\s*choice\s*=)"))
    if not mr:
        raise ValueError("OrList::reset values not found")
    rc, rc1, rcc = int(mr.group(1)), int(mr.group(2)), int(mr.group(3))

    # --- null safety of the backwards step in MultList::tryNext
    fc = _func_body(tn, r"static\s+EntList\s*\*\s*firstCandidate\s*\(\s*EntList\s*\*\s*(\w+)\s*\)\s*(?=\{)")
    pv = re.search(r"static\s+EntList\s*\*\s*firstCandidate\s*\(\s*EntList\s*\*\s*(\w+)\s*\)\s*\{", tn).group(1)
    use = re.search(re.escape(pv) + r"\s*->", fc)
    if not use:
        raise ValueError("firstCandidate: parameter is never dereferenced — unknown shape")
    before = fc[:use.start()]
    callee_safe = re.search(NULLTEST.format(v=re.escape(pv)), before) is not None
    tb = _func_body(tn, r"MatchType\s+MultList::tryNext\s*\(\s*EntNode\s*\*\s*\w+\s*\)\s*(?=\{)")
    steps = list(re.finditer(r"firstCandidate\s*\(\s*(\w+)\s*->\s*prev\s*\)", tb))
    if len(steps) != 1:
        raise ValueError(f"MultList::tryNext: expected one backwards step firstCandidate( x->prev ), found {len(steps)}")
    v = steps[0].group(1)
    stmt_start = tb.rfind(";", 0, steps[0].start()) + 1
    stmt_start = max(stmt_start, tb.rfind("}", 0, steps[0].start()) + 1, tb.rfind("{", 0, steps[0].start()) + 1)
    stmt = tb[stmt_start:steps[0].start()]
    caller_safe = re.search(NULLTEST.format(v=re.escape(v) + r"\s*->\s*prev"), stmt) is not None
    # the first call receives getLast(): null only for a list without children (never generated); recorded, not guarded
    safe = callee_safe or caller_safe

    # --- EntNode::lastSmaller (used by EntNode::sort after renaming): strict or non-strict comparisons
    en = _strip(open(os.path.join(repo, "src/clstepcore/entnode.cc")).read())
    lb = _func_body(en, r"EntNode\s*\*\s*EntNode::lastSmaller\s*\(\s*EntNode\s*\*\s*\w+\s*\)\s*(?=\{)")
    mw = re.search(r"while\s*\((.*?)\)\s*\{", lb, re.S)
    if not mw:
        raise ValueError("EntNode::lastSmaller: while loop not found")
    cond = re.sub(r"\s+", "", mw.group(1))
    if cond == "eptr&&*eptr>*prev&&*eptr<*ent":
        sort_nonstrict = False
    elif cond in ("eptr&&!(*eptr<*prev)&&!(*eptr>*ent)", "eptr&&*eptr>=*prev&&*eptr<=*ent"):
        sort_nonstrict = True
    else:
        raise ValueError(f"EntNode::lastSmaller: unknown loop condition {cond!r}")

    # --- the reset() family (ComplexList::matches ends with head->reset(); ents->unmarkAll())
    ml = _strip(open(os.path.join(repo, "src/clstepcore/multlist.cc")).read())
    norm = lambda t: re.sub(r"\s+", "", t)
    mrb = norm(_func_body(ml, r"void\s+MultList::reset\s*\(\s*\)\s*(?=\{)"))
    mult_ok = mrb in ("EntList*child;viable=UNKNOWN;for(child=childList;child;child=child->next){child->reset();}",
                      "viable=UNKNOWN;for(EntList*child=childList;child;child=child->next){child->reset();}")
    if not mult_ok and ("return" not in mrb and "if(" not in mrb):
        raise ValueError(f"MultList::reset: unknown shape {mrb!r}")
    simple_ok = re.search(r"voidreset\(\)\{viable=UNKNOWN;I_marked=NOMARK;\}", norm(h)) is not None
    or_ok = re.search(r"choiceCount=\d+;MultList::reset\(\);\}", norm(h)) is not None
    cl = _strip(open(os.path.join(repo, "src/clstepcore/complexlist.cc")).read())
    mb = norm(_func_body(cl, r"bool\s+ComplexList::matches\s*\(\s*EntNode\s*\*\s*\w+\s*\)\s*(?=\{)"))
    tail_ok = re.search(r"head->reset\(\);(?:\w+->setfirst\([^)]*\);)?\w+->unmarkAll\(\);return\w+;$", mb) is not None
    if not tail_ok and "head->reset()" not in mb:
        raise ValueError("ComplexList::matches: reset()/unmarkAll() tail not found")
    reset_full = mult_ok and simple_ok and or_ok and tail_ok

    def lst(xs):
        return "[" + ", ".join(f'"{x}"' for x in xs) + "]"
    out = f"""-- GENERATED by tools/extract.d/c08_complex.py from include/clstepcore/complexSupport.h, src/clstepcore/trynext.cc, multlist.cc, complexlist.cc and entnode.cc
namespace StepModel.Generated

/-- `#define LISTEND` -/
def listEnd : Int := {listend}
/-- enumerators of `MarkType`, `MatchType`, `JoinType`, in declaration order (they are compared as integers) -/
def markTypeNames : List String := {lst(marks)}
def matchTypeNames : List String := {lst(matches)}
def joinTypeNames : List String := {lst(joins)}
/-- `OrList::OrList()` : choice, choice1, choiceCount -/
def orInitChoice : Int := {c0}
def orInitChoice1 : Int := {c10}
def orInitCount : Nat := {cc0}
/-- `OrList::reset()` : choice, choice1, choiceCount -/
def orResetChoice : Int := {rc}
def orResetChoice1 : Int := {rc1}
def orResetCount : Nat := {rcc}
/-- `MultList::tryNext` steps backwards with `firstCandidate( child->prev )`; true when the null pointer that the
first child's `prev` is gets tested before `firstCandidate` dereferences it -/
def tryNextNullSafe : Bool := {"true" if safe else "false"}
/-- `EntNode::lastSmaller` walks while the next node is not smaller than the previous and not greater than the bound
(true), or strictly greater / strictly smaller (false: equal names, possible after renaming, end the walk early) -/
def sortNonStrict : Bool := {"true" if sort_nonstrict else "false"}
/-- `ComplexList::matches` ends with `head->reset(); ents->unmarkAll();`, `MultList::reset` sets `viable = UNKNOWN` and
resets every child unconditionally, `SimpleList::reset` clears `viable` and `I_marked`, `OrList::reset` its three
counters and then the `MultList` part (src/clstepcore/multlist.cc, complexlist.cc, complexSupport.h) -/
def resetIsFull : Bool := {"true" if reset_full else "false"}

end StepModel.Generated
"""
    return {"ComplexGen.lean": out}

#!/bin/bash
# usage: store_seed.sh PID wave  -> copies /tmp/seed-PID-wave-out/{1,2} to /verif/seeded/PID-wave{1,2}, removes worktree, runs confirm
PID=$1; W=$2
dirs=""
for i in 1 2 3; do
  s=/tmp/seed-$PID-$W-out/$i
  [ -f $s/patch.diff ] || continue
  d=/verif/seeded/$PID-$W$i
  rm -rf $d; mkdir -p $d; cp -r $s/. $d/
  dirs="$dirs $d"
done
git -C /repo worktree remove --force /tmp/seed-$PID-$W 2>/dev/null; rm -rf /tmp/seed-$PID-$W /tmp/seed-$PID-$W-out /tmp/seed-$PID-$W-bld*; git -C /repo worktree prune
bash /verif/tools/run_seeds.sh $PID $dirs

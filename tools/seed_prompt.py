#!/usr/bin/env python3
"""Print the prompt for a fresh 'breaker' sub-agent for one property (it gets only the property text and a worktree)."""
import json, sys
pid, tag = sys.argv[1], sys.argv[2]
n = int(sys.argv[3]) if len(sys.argv) > 3 else 2
extra = sys.argv[4] if len(sys.argv) > 4 else ""
p = next(json.loads(l) for l in open("/verif/properties.jsonl") if json.loads(l)["id"] == pid)
wt = f"/tmp/seed-{pid}-{tag}"
print(f"""You are helping to evaluate a verification harness by playing the role of a developer who introduces a subtle regression.

Project: stepcode (C/C++/Python; an ISO 10303-11 EXPRESS schema parser/resolver that generates C++/Python classes, plus run-time libraries that read and write STEP Part 21 files). You have your own scratch git worktree of the repository at {wt} — work ONLY there (never touch /repo, never look at or use anything under /verif). No network.

The semantic property to break (this is all you are given):

TITLE: {p['title']}
STATEMENT: {p['statement']}
QUANTIFIED OVER: {p['quantifier']['text']}
CODE IT IS ANCHORED IN: {', '.join(p['anchors']['files'])}
OBSERVED AT: {'; '.join(p['anchors'].get('observe_at') or [])}

Your task: produce {n} different, independent, small, realistic source changes (each its own patch against the clean tree — the kind of thing a plausible refactoring, optimisation, "cleanup" or feature commit would contain), each of which makes the property FALSE while
  * the project still compiles,
  * the existing test suite still passes (ctest: it generates and builds the C++ libraries for ~20 shipped schemas, reads/writes ~30 shipped sample STEP files with p21read and the lazy loader checking only exit status, runs check-express/exppp/exp2cxx on a handful of small unit schemas in test/unitary_schemas and a few tiny C++ unit tests under test/cpp and src/*/test — read the CMake test definitions to see exactly what is exercised and argue precisely why no existing test notices your change), and
  * the breakage needs something SPECIFIC to manifest — a particular multi-step sequence of operations, an unusual but legal input shape, a particular size or boundary, a particular option combination, or two cooperating sites that each look fine alone — NOT something that ordinary use would expose at once. Spread the changes over different mechanisms/files of the anchored code.
{extra}
Deliver, in {wt}-out/1/ … {wt}-out/{n}/ :
  * patch.diff   (git diff of the change; must apply with `git apply` to a clean checkout of the same commit)
  * a demonstration that exits 0 on the unmodified code and non-zero (printing what went wrong) with the change: either demo.cc (a small C++ program against the core libraries' public API) or run_demo.sh taking two arguments <source-tree> <core-build-dir> (a core build is made with: cmake -G Ninja -B <bld> -S <src> -DSC_BUILD_SCHEMAS="" -DSC_ENABLE_TESTING=OFF -DCMAKE_BUILD_TYPE=Debug && cmake --build <bld> -j8 ; it provides <bld>/bin/{{check-express,exppp,exp2cxx,exp2python}} and <bld>/lib/lib{{express,exppp,stepcore,stepdai,steputils,stepeditor,steplazyfile}}.so; a generated schema library for a small schema can be built by running <bld>/bin/exp2cxx schema.exp in an empty directory and compiling all emitted .cc files with -DSC_SDAI_UNITY_BUILD -I<src>/include -I<bld>/include -I<src>/src/{{cldai,cleditor,clutils,clstepcore,cllazyfile}} -I. and linking -lsteplazyfile -lstepeditor -lstepcore -lstepdai -lsteputils; only compile SdaiAll.cc compstructs.cc schema.cc Sdai<SCHEMA>.cc Sdai<SCHEMA>.init.cc and the two *_unity_*.cc files), together with any input files it needs;
  * meta.json    {{"property": "{pid}", "summary": ..., "needs_to_manifest": ..., "why_tests_pass": ..., "files_changed": [...], "commands_run": [...]}}
Actually build the clean variant and each changed variant and run the demonstration on both to confirm (passes without the change, fails with it). Keep build output outside the worktree (e.g. {wt}-bld) and delete it when done; `git checkout -- .` in the worktree between changes. Do not commit anything. Finish with a brief report of what you changed and what you verified.""")

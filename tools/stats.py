#!/usr/bin/env python3
"""Numbers for DESIGN.md §0a: obligations per property (from evidence), Lean lines, fix commits, findings, seeds."""
import glob, json, os, re, subprocess
V = os.path.dirname(os.path.dirname(os.path.abspath(__file__)))
tot = 0
rows = []
for f in sorted(glob.glob(os.path.join(V, "evidence", "C*.json"))):
    e = json.load(open(f))
    pid = os.path.basename(f)[:-5]
    po = e.get("proof_obligations") or e.get("coverage", {}).get("proof_obligations") or {}
    n = po.get("total") if isinstance(po, dict) else None
    if n is None:
        n = len(re.findall(r"^theorem %s_" % pid, open(os.path.join(V, "lean/StepModel/Props/%s.lean" % pid)).read(), re.M))
    tot += n
    rows.append((pid, n, e.get("inputs_evaluated") or e.get("coverage", {}).get("evaluations")))
print("obligations", tot, rows)
lines = 0
for f in glob.glob(os.path.join(V, "lean/**/*.lean"), recursive=True):
    if "/.lake/" in f: continue
    lines += sum(1 for _ in open(f))
print("lean lines", lines)
thm = 0
for f in glob.glob(os.path.join(V, "lean/StepModel/**/*.lean"), recursive=True):
    thm += len(re.findall(r"^(?:theorem|lemma) ", open(f).read(), re.M))
print("theorems+lemmas in library", thm)
k = open(os.path.join(V, "KNOWN_FINDINGS.txt")).read()
print("fixed", len(re.findall(r"^fixed:", k, re.M)), "finding", len(re.findall(r"^finding:", k, re.M)))
print("fix commits in /repo", subprocess.run("git -C /repo log --oneline | grep -c ' fix:'", shell=True, capture_output=True, text=True).stdout.strip())
print("seeds", len(glob.glob(os.path.join(V, "seeded", "C*"))))

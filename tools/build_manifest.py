#!/usr/bin/env python3
"""Rebuild MANIFEST.json from notes/<ID>.md ("Proposed MANIFEST fields" section) for every property whose check
module exists; properties without a check go to not_applicable with the reason in tools/manifest_overrides.json.

  tools/build_manifest.py            # rewrite MANIFEST.json (validates against the schema when jsonschema is importable)
"""
import json, os, re, sys

VERIF = os.path.dirname(os.path.dirname(os.path.abspath(__file__)))


def fields_from_notes(pid):
    p = os.path.join(VERIF, "notes", pid + ".md")
    if not os.path.exists(p):
        return {}
    t = open(p).read()
    m = re.search(r"^#+\s*Proposed MANIFEST.*?$(.*?)(?=^#+\s|\Z)", t, re.S | re.M | re.I)
    if not m:
        return {}
    sec = m.group(1)
    out = {}
    for key in ["level_claimed.category", "level_claimed.text", "level_note", "technique"]:
        mm = re.search(r"`?" + re.escape(key) + r"`?\s*[:=]\s*(.*?)(?=\n\s*[*\-]\s*`?(?:level_claimed|level_note|technique)|\Z)", sec, re.S)
        if mm:
            v = re.sub(r"\s+", " ", mm.group(1)).strip().strip("`").strip()
            v = v.strip('"').strip("“”").strip()
            out[key] = v
    return out


def main():
    props = [json.loads(l) for l in open(os.path.join(VERIF, "properties.jsonl"))]
    ov_path = os.path.join(VERIF, "tools", "manifest_overrides.json")
    ov = json.load(open(ov_path)) if os.path.exists(ov_path) else {}
    old = json.load(open(os.path.join(VERIF, "MANIFEST.json")))
    old_checks = {c["property_id"]: c for c in old.get("checks", [])}
    checks, na = [], []
    for p in props:
        pid = p["id"]
        o = ov.get(pid, {})
        has = (os.path.exists(os.path.join(VERIF, "checks", pid.lower() + ".py")) and not o.get("disabled")
               and pid in ov.get("ready", []))
        if not has:
            na.append({"property_id": pid, "reason": o.get("reason", "check not built yet (work in progress; see DESIGN.md §5)")})
            continue
        f = fields_from_notes(pid)
        prev = old_checks.get(pid, {})
        cat = o.get("category") or f.get("level_claimed.category") or prev.get("level_claimed", {}).get("category") or "proof"
        cat = re.sub(r"[^a-z_]", "", cat.split()[0].lower()) if cat else "proof"
        if cat not in ("exploration", "fault_enumeration", "model_checking", "proof", "translation_validation", "other"):
            cat = "proof"
        text = o.get("text") or f.get("level_claimed.text") or prev.get("level_claimed", {}).get("text") or "see notes/%s.md" % pid
        note = o.get("level_note") or f.get("level_note") or prev.get("level_note") or "see notes/%s.md" % pid
        tech = o.get("technique") or f.get("technique") or prev.get("technique") or "Lean 4 proof + checked tie to source"
        c = {"property_id": pid,
             "quick_cmd": f"./check {pid} --tier quick",
             "thorough_cmd": f"./check {pid} --tier thorough",
             "evidence_file": f"evidence/{pid}.json",
             "replay_cmd_template": f"./check {pid} --replay {{path}}",
             "engine": "lean4-stepmodel",
             "level_claimed": {"category": cat, "text": text, "design_ref": f"DESIGN.md §5 {pid}; notes/{pid}.md"},
             "level_note": note, "technique": tech}
        checks.append(c)
    claimed = [c["property_id"] for c in checks]
    m = {"version": 1, "setup_cmd": "./check --setup", "hooks": old["hooks"],
         "engines": [
             {"name": "lean4-stepmodel", "path": "lean/", "serves_properties": claimed,
              "kind_free_text": "Lean 4.33 library StepModel: hand-written executable models + property theorems (StepModel/Props/Cxx.lean), tables and constants regenerated from /repo by tools/extract.d on every run, compiled line-protocol drivers (lean_exe m_cXX) for the correspondence checks"},
             {"name": "check-driver", "path": "check", "serves_properties": claimed,
              "kind_free_text": "python3 driver (check, vlib/, checks/): scratch build of /repo's working tree keyed by content hash, regenerate + lake build + #print axioms audit (+ leanchecker in thorough), correspondence of real code (C++ harnesses in harness/, the scratch tools, the bundled Python runtime) against the Lean drivers, property oracle / violation search, KNOWN_FINDINGS handling, evidence"}],
         "checks": checks, "not_applicable": na,
         "notes": "DESIGN.md describes the approach; notes/<ID>.md what each check proves and covers; KNOWN_FINDINGS.txt lists repaired defects (fixed:) and recorded ones (finding:); seeded/ holds confirmed property-breaking changes and which checks caught them."}
    json.dump(m, open(os.path.join(VERIF, "MANIFEST.json"), "w"), indent=1, ensure_ascii=False)
    try:
        import jsonschema
        jsonschema.validate(m, json.load(open("/root/.vp/MANIFEST.schema.json")))
        print("MANIFEST.json valid;", len(checks), "checks;", len(na), "not_applicable")
    except ImportError:
        print("MANIFEST.json written (jsonschema not importable here);", len(checks), "checks")


if __name__ == "__main__":
    main()

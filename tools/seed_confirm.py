#!/usr/bin/env python3
"""Confirm a seeded property-breaking change and run our checks against it.

  tools/seed_confirm.py <seed-dir> <ID> [--tests] [--tier quick] [--demo-cmd '...'] [--also ID2,ID3]

<seed-dir> holds patch.diff, a demonstration (demo.cc linking the core libs, or run_demo.sh taking
<src-tree> <build-dir> and exiting 0 = property holds) and meta.json.
Steps (all in scratch space, removed afterwards; /repo itself is never touched):
  1. clean worktree of /repo HEAD -> core build -> demo must pass (exit 0)
  2. apply patch -> rebuild -> demo must fail (exit != 0)
  3. VERIF_REPO=<patched worktree> ./check <ID> --tier <tier>  -> must print VIOLATION and exit 1
  4. --tests: apply the patch in the full test tree (/var/tmp/testtree, built once with all schemas), rebuild
     incrementally, run ctest, compare with BASELINE.json stable_pass, revert.
Writes <seed-dir>/confirm.json.
"""
import argparse, json, os, re, shutil, subprocess, sys, time

VERIF = os.path.dirname(os.path.dirname(os.path.abspath(__file__)))
TESTTREE = "/var/tmp/testtree"


def sh(cmd, cwd=None, env=None, timeout=7200):
    r = subprocess.run(cmd, shell=isinstance(cmd, str), cwd=cwd, env=env, capture_output=True, text=True, timeout=timeout)
    return r.returncode, r.stdout + r.stderr


def core_build(src, bld):
    rc, out = sh(["cmake", "-G", "Ninja", "-S", src, "-B", bld, "-DSC_BUILD_SCHEMAS=", "-DSC_ENABLE_TESTING=OFF",
                  "-DCMAKE_BUILD_TYPE=Debug"])
    if rc == 0:
        rc, out = sh(["cmake", "--build", bld, "-j", "12"])
    return rc, out


def run_demo(seed, src, bld, demo_cmd):
    if demo_cmd:
        return sh(demo_cmd.format(src=src, bld=bld, seed=seed), cwd=seed, timeout=1800)
    if os.path.exists(os.path.join(seed, "run_demo.sh")):
        return sh(["bash", os.path.join(seed, "run_demo.sh"), src, bld], cwd=seed, timeout=1800)
    exe = os.path.join(bld, "seed_demo")
    incs = [f"-I{src}/include", f"-I{bld}/include"] + [f"-I{src}/src/{d}" for d in
                                                          ("cldai", "cleditor", "clutils", "clstepcore", "cllazyfile", "base")]
    rc, out = sh(["g++", "-std=c++11", "-w", "-g"] + incs + [os.path.join(seed, "demo.cc"), "-o", exe, f"-L{bld}/lib",
                  "-lsteplazyfile", "-lstepeditor", "-lstepcore", "-lstepdai", "-lsteputils", f"-Wl,-rpath,{bld}/lib"])
    if rc != 0:
        return 125, "demo compile failed:\n" + out[-2000:]
    return sh([exe], cwd=seed, timeout=600)


def ctest_names(log):
    passed, failed = set(), set()
    for m in re.finditer(r"Test\s+#\d+:\s+(\S+)\s+\.+\s*(Passed|\*\*\*Failed|\*\*\*Timeout|\*\*\*Exception|\*\*\*Not Run)", log):
        (passed if m.group(2) == "Passed" else failed).add(m.group(1))
    return passed, failed


def run_tests(patch):
    """apply patch in the full test tree, rebuild, ctest, revert.  returns dict"""
    src, bld = os.path.join(TESTTREE, "src"), os.path.join(TESTTREE, "bld")
    base = json.load(open("/root/.vp/BASELINE.json"))
    stable = {n.split("::")[0] for n in base["stable_pass"]}
    res = {}
    rc, out = sh(["git", "apply", patch], cwd=src)
    if rc != 0:
        return {"error": "patch does not apply in test tree: " + out[-500:]}
    try:
        t = time.time()
        rc, out = sh(["cmake", "--build", bld, "-j", "12"], timeout=4 * 3600)
        res["build_rc"], res["build_s"] = rc, round(time.time() - t)
        if rc != 0:
            res["build_tail"] = out[-1500:]
            return res
        t = time.time()
        rc, out = sh(["ctest", "--test-dir", bld, "-j", "12", "--timeout", "900"], timeout=4 * 3600)
        res["ctest_s"] = round(time.time() - t)
        passed, failed = ctest_names(out)
        res["passed"] = len(passed & stable)
        res["stable_missing"] = sorted(stable - passed)
        res["ok"] = not res["stable_missing"]
    finally:
        sh(["git", "checkout", "--", "."], cwd=src)
        sh(["git", "clean", "-fdq"], cwd=src)
    return res


def main():
    ap = argparse.ArgumentParser()
    ap.add_argument("seed"); ap.add_argument("pid")
    ap.add_argument("--tests", action="store_true")
    ap.add_argument("--tier", default="quick")
    ap.add_argument("--demo-cmd")
    ap.add_argument("--also", default="")
    ap.add_argument("--skip-demo", action="store_true")
    a = ap.parse_args()
    seed = os.path.abspath(a.seed)
    patch = os.path.join(seed, "patch.diff")
    name = os.path.basename(seed.rstrip("/"))
    root = f"/var/tmp/seedconf-{a.pid}-{name}-{os.getpid()}"
    wt, bld = root + "/src", root + "/bld"
    os.makedirs(root)
    res = {"seed": seed, "property": a.pid, "head": sh(["git", "-C", "/repo", "rev-parse", "HEAD"])[1].strip()}
    try:
        rc, out = sh(["git", "-C", "/repo", "worktree", "add", "--detach", wt, "HEAD"])
        assert rc == 0, out
        if not a.skip_demo:
            rc, out = core_build(wt, bld)
            assert rc == 0, "clean core build failed: " + out[-1500:]
            rc, out = run_demo(seed, wt, bld, a.demo_cmd)
            res["demo_clean_rc"], res["demo_clean_tail"] = rc, out[-600:]
        rc, out = sh(["git", "apply", patch], cwd=wt)
        res["patch_applies"] = (rc == 0)
        assert rc == 0, "patch does not apply: " + out
        if not a.skip_demo:
            rc, out = core_build(wt, bld)
            res["patched_build_rc"] = rc
            assert rc == 0, "patched core build failed: " + out[-1500:]
            rc, out = run_demo(seed, wt, bld, a.demo_cmd)
            res["demo_patched_rc"], res["demo_patched_tail"] = rc, out[-600:]
        env = dict(os.environ, VERIF_REPO=wt)
        res["checks"] = {}
        for pid in [a.pid] + [x for x in a.also.split(",") if x]:
            t = time.time()
            rc, out = sh([os.path.join(VERIF, "check"), pid, "--tier", a.tier], cwd=VERIF, env=env, timeout=4 * 3600)
            viol = [l for l in out.split("\n") if l.startswith("VIOLATION") or l.startswith("  what:") or l.startswith("  no longer")]
            res["checks"][pid] = {"exit": rc, "wall_s": round(time.time() - t), "lines": viol[:8]}
            # evidence written by this run describes the mutated tree: restore the committed one
            sh(["git", "checkout", "--", f"evidence/{pid}.json"], cwd=VERIF)
        if a.tests:
            res["tests"] = run_tests(patch)
    except AssertionError as e:
        res["error"] = str(e)
    finally:
        sh(["git", "-C", "/repo", "worktree", "remove", "--force", wt])
        shutil.rmtree(root, ignore_errors=True)
        sh(["git", "-C", "/repo", "worktree", "prune"])
    json.dump(res, open(os.path.join(seed, "confirm.json"), "w"), indent=1)
    print(json.dumps(res, indent=1))


if __name__ == "__main__":
    main()

#!/bin/bash
# run every check's quick (or $1) tier sequentially on /repo; summary in /var/tmp/all_<tier>.log
T=${1:-quick}; cd /verif; : > /var/tmp/all_$T.log
for p in C01 C02 C03 C04 C05 C06 C07 C08 C09 C10 C11 C12 C13 C14 C15 C16 C17 C18 C19 C20; do
  s=$(date +%s); ./check $p --tier $T > /var/tmp/chk_${T}_$p.log 2>&1; rc=$?
  echo "$p rc=$rc $(( $(date +%s)-s ))s $(tail -1 /var/tmp/chk_${T}_$p.log | cut -c1-200)" >> /var/tmp/all_$T.log
done
echo ALLDONE >> /var/tmp/all_$T.log
